package main

import (
	"context"
	"crypto/tls"
	"errors"
	"fmt"
	"net"
	"net/http"
	"net/http/httptest"
	"net/url"
	"sort"
	"strings"

	"github.com/fullstorydev/grpchan"
	"github.com/fullstorydev/grpchan/grpchantesting"
	"github.com/fullstorydev/grpchan/httpgrpc"
	"google.golang.org/grpc"
	"google.golang.org/grpc/credentials"
	"google.golang.org/grpc/metadata"
	"google.golang.org/grpc/codes"
	"google.golang.org/grpc/peer"
	"google.golang.org/grpc/status"
)

func init() { suites["C13"] = suiteC13 }

type testCreds struct {
	md      map[string]string
	err     error
	secure  bool
	calls   int
	lastURI string
}

func (c *testCreds) GetRequestMetadata(ctx context.Context, uri ...string) (map[string]string, error) {
	c.calls++
	if len(uri) > 0 {
		c.lastURI = uri[0]
	}
	if c.err != nil {
		return nil, c.err
	}
	return c.md, nil
}
func (c *testCreds) RequireTransportSecurity() bool { return c.secure }

func mdArg(md metadata.MD) string {
	if len(md) == 0 {
		return "-"
	}
	keys := make([]string, 0, len(md))
	for k := range md {
		keys = append(keys, k)
	}
	sort.Strings(keys)
	var parts []string
	for _, k := range keys {
		var vs []string
		for _, v := range md[k] {
			vs = append(vs, hexOrDash([]byte(v)))
		}
		parts = append(parts, hexOrDash([]byte(k))+"="+strings.Join(vs, ","))
	}
	return strings.Join(parts, ";")
}

func suiteC13(r *Run) {
	r.Rule = "{http (in-memory + loopback), https (httptest TLS), in-process} x {creds requiring security or not, none} x {unary, streaming} x credential metadata maps (overlapping keys with caller metadata, mixed-case keys, empty map, error) x peer/header options present or not; unit layer on ApplyPerRPCCreds. Non-trivial: credentials present or a peer option supplied; distinct by configuration tuple."
	r.Assumptions = append(r.Assumptions, "crypto/tls handshake and httptest's certificate", "grpc metadata.Join/New")
	rng := r.Rng

	// (keys that a proxy would use to name the original client are ordinary metadata here: they must not move the handler's peer)
	credMaps := []map[string]string{nil, {}, {"authorization": "tok"}, {"Authorization": "Tok", "x-extra": "1"}, {"k": "from-creds"}, {"k": "c1", "K2": "c2", "k3-bin": "\x00\xff"},
		{"x-forwarded-for": "203.0.113.7", "authorization": "tok"}}
	callerMDs := []metadata.MD{nil, metadata.Pairs("k", "caller"), metadata.Pairs("k", "a", "k", "b", "other", "o"), metadata.Pairs("authorization", "caller-tok"),
		metadata.Pairs("x-forwarded-for", "198.51.100.9, 10.0.0.1", "forwarded", "for=198.51.100.9", "x-real-ip", "198.51.100.9")}

	// ---------- unit: ApplyPerRPCCreds
	for i := 0; i < r.Budget(200, 5000); i++ {
		cm := credMaps[rng.Intn(len(credMaps))]
		caller := callerMDs[rng.Intn(len(callerMDs))]
		var tc *testCreds
		kind := rng.Intn(5)
		switch kind {
		case 0:
		case 1:
			tc = &testCreds{md: cm}
		case 2:
			tc = &testCreds{md: cm, secure: true}
		case 3:
			tc = &testCreds{err: errors.New("cred failure")}
		case 4:
			tc = &testCreds{err: errors.New("cred failure"), secure: true}
		}
		secure := rng.Bool()
		ctx := context.Background()
		if caller != nil {
			ctx = metadata.NewOutgoingContext(ctx, caller.Copy())
		}
		copts := &grpchan.VerifCallOptions{}
		credArg := "none"
		if tc != nil {
			copts.Creds = tc
			credArg = sprintf("sec=%s;err=%s;md=%s", b01(tc.secure), b01(tc.err != nil), mdArg(metadata.New(map[string]string{})))
			if tc.err == nil {
				m := metadata.MD{}
				for k, v := range cm {
					m[k] = []string{v} // raw, not lower-cased: the model lower-cases
				}
				credArg = sprintf("sec=%s;err=0;md=%s", b01(tc.secure), strings.ReplaceAll(mdArg(m), ";", "|"))
			}
		}
		nctx, err := grpchan.VerifApplyPerRPCCreds(ctx, copts, "uri", secure)
		ans := "error"
		var out metadata.MD
		if err == nil {
			out, _ = metadata.FromOutgoingContext(nctx)
			ans = "ok " + mdArg(out)
		}
		calls := 0
		if tc != nil {
			calls = tc.calls
		}
		ans += sprintf(" credcalls=%d", calls)
		r.Op(sprintf("C13 apply secure=%s caller=%s creds=%s", b01(secure), strings.ReplaceAll(mdArg(caller), ";", "|"), credArg), ans)
		r.Eval(fmt.Sprint("apply", secure, mdArg(caller), credArg), tc != nil)
		r.Count("unit:apply")
		c := map[string]interface{}{"op": "apply", "secure": secure, "caller_md": mdArg(caller), "creds": credArg}
		if tc != nil && tc.secure && !secure {
			if err == nil || tc.calls != 0 {
				r.Violate("creds/insecure-not-blocked", "if they require transport security and the channel is not secure, the call fails before any request is issued", sprintf("err=%v credcalls=%d", err, tc.calls), c, ans)
			}
		} else if tc != nil && tc.err != nil {
			if err == nil {
				r.Violate("creds/error-swallowed", "an error from the credential fails the call", "ApplyPerRPCCreds returned nil", c, ans)
			}
		} else if err != nil {
			r.Violate("creds/spurious-error", "credentials contribute their metadata", sprintf("unexpected error %v", err), c, ans)
		} else {
			// merged: every caller value and every credential value present, caller's first, in order
			want := metadata.MD{}
			for k, vs := range caller {
				want[k] = append(want[k], vs...)
			}
			if tc != nil {
				for k, v := range cm {
					lk := strings.ToLower(k)
					want[lk] = append(want[lk], v)
				}
			}
			if mdArg(want) != mdArg(out) && !(len(want) == 0 && len(out) == 0) {
				// credential map iteration order may interleave values of keys that collide after lower-casing; compare as multisets per key
				if !sameMultiset(want, out) {
					r.Violate("creds/not-merged", "credentials contribute their metadata to the request, merged with the caller's own outgoing metadata", sprintf("want %s got %s", mdArg(want), mdArg(out)), c, ans)
				}
			}
		}
	}

	// ---------- end to end
	type transport struct {
		name   string
		secure bool
		mk     func(svr *scriptServer) (grpc.ClientConnInterface, func() int, func())
	}
	transports := []transport{
		{"inproc", true, func(svr *scriptServer) (grpc.ClientConnInterface, func() int, func()) {
			return newInproc(svr), func() int { return -1 }, func() {}
		}},
		{"httpmem", false, func(svr *scriptServer) (grpc.ClientConnInterface, func() int, func()) {
			hm := newHTTPMem(svr)
			return hm.ch, hm.tr.Trips, func() {}
		}},
		{"httpnet", false, func(svr *scriptServer) (grpc.ClientConnInterface, func() int, func()) {
			hs := httpgrpc.NewServer()
			grpchantesting.RegisterTestServiceServer(hs, svr)
			ts := httptest.NewServer(hs)
			u, _ := url.Parse(ts.URL + "/")
			ct := &countingRT{rt: ts.Client().Transport}
			return &httpgrpc.Channel{Transport: ct, BaseURL: u}, func() int { return ct.n }, ts.Close
		}},
		{"httptls", true, func(svr *scriptServer) (grpc.ClientConnInterface, func() int, func()) {
			hs := httpgrpc.NewServer()
			grpchantesting.RegisterTestServiceServer(hs, svr)
			ts := httptest.NewTLSServer(hs)
			u, _ := url.Parse(ts.URL + "/")
			ct := &countingRT{rt: ts.Client().Transport}
			return &httpgrpc.Channel{Transport: ct, BaseURL: u}, func() int { return ct.n }, ts.Close
		}},
	}
	for iter := 0; iter < r.Budget(48, 1200); iter++ {
		tp := transports[iter%len(transports)]
		streaming := (iter/len(transports))%2 == 1
		cm := credMaps[rng.Intn(len(credMaps))]
		caller := callerMDs[rng.Intn(len(callerMDs))]
		var tc *testCreds
		switch rng.Intn(4) {
		case 1:
			tc = &testCreds{md: cm}
		case 2:
			tc = &testCreds{md: cm, secure: true}
		case 3:
			tc = &testCreds{err: errors.New("cred failure")}
		}
		withPeer := rng.Chance(80)
		handlerFails := rng.Chance(30) // the server answers with a non-OK status: the caller has still talked to that peer
		var seenMD metadata.MD
		var seenPeer *peer.Peer
		handlerRan := 0
		svr := &scriptServer{}
		svr.unary = func(ctx context.Context, req *Msg) (*Msg, error) {
			handlerRan++
			seenMD, _ = metadata.FromIncomingContext(ctx)
			seenPeer, _ = peer.FromContext(ctx)
			if handlerFails {
				return nil, status.Error(codes.NotFound, "scripted failure")
			}
			return &Msg{}, nil
		}
		svr.sstream = func(req *Msg, s grpchantesting.TestService_ServerStreamServer) error {
			handlerRan++
			seenMD, _ = metadata.FromIncomingContext(s.Context())
			seenPeer, _ = peer.FromContext(s.Context())
			if handlerFails {
				return status.Error(codes.NotFound, "scripted failure")
			}
			return s.Send(&Msg{})
		}
		ch, trips, closeFn := tp.mk(svr)
		ctx, cancel := context.WithCancel(context.Background())
		if caller != nil {
			ctx = metadata.NewOutgoingContext(ctx, caller.Copy())
		}
		// proxy style: the call is made from inside another handler, whose context carries that call's peer
		foreign := rng.Chance(35)
		if foreign {
			ctx = peer.NewContext(ctx, &peer.Peer{Addr: &net.TCPAddr{IP: net.IPv4(203, 0, 113, 9), Port: 999}})
		}
		var opts []grpc.CallOption
		var pr peer.Peer
		if withPeer {
			opts = append(opts, grpc.Peer(&pr))
		}
		if tc != nil {
			opts = append(opts, grpc.PerRPCCredentials(tc))
		}
		var err error
		if !streaming {
			err = ch.Invoke(ctx, mUnary, &Msg{}, &Msg{}, opts...)
		} else {
			var cs grpc.ClientStream
			cs, err = ch.NewStream(ctx, descSStream, mSStream, opts...)
			if err == nil {
				cs.SendMsg(&Msg{})
				cs.CloseSend()
				var m Msg
				err = cs.RecvMsg(&m)
				if err == nil {
					var m2 Msg
					cs.RecvMsg(&m2)
				}
			}
		}
		cancel()
		nTrips := trips()
		closeFn()
		c := map[string]interface{}{"transport": tp.name, "streaming": streaming, "creds": fmt.Sprintf("%+v", tc), "caller_md": mdArg(caller), "peer_option": withPeer, "caller_context_has_upstream_peer": foreign, "handler_returns_NotFound": handlerFails}
		r.Eval(fmt.Sprint("e2e", tp.name, streaming, tc != nil, mdArg(caller), withPeer, iter), tc != nil || withPeer)
		r.Count("e2e:" + tp.name)
		r.TracesOnImpl++
		if tc != nil && tc.secure && !tp.secure {
			if err == nil || handlerRan != 0 || nTrips > 0 || tc.calls != 0 {
				r.Violate("creds/insecure-not-blocked", "if they require transport security and the HTTP base URL is not https, the call fails before any request is issued",
					sprintf("%s: err=%v handler ran %d, round trips %d, credential consulted %d", tp.name, err, handlerRan, nTrips, tc.calls), c, canonErr(err))
			}
			continue
		}
		if tc != nil && tc.err != nil {
			if err == nil || handlerRan != 0 {
				r.Violate("creds/error-swallowed", "an error from the credential fails the call", sprintf("%s: err=%v handler ran %d", tp.name, err, handlerRan), c, canonErr(err))
			}
			continue
		}
		if handlerFails && status.Code(err) == codes.NotFound && handlerRan == 1 {
			err = nil // the scripted outcome
		}
		if err != nil || handlerRan != 1 {
			r.Violate("creds/call-failed", "the call goes through", sprintf("%s streaming=%v: err=%v handler ran %d", tp.name, streaming, err, handlerRan), c, canonErr(err))
			continue
		}
		// merged metadata visible to the handler
		want := metadata.MD{}
		for k, vs := range caller {
			want[k] = append(want[k], vs...)
		}
		if tc != nil {
			for k, v := range cm {
				lk := strings.ToLower(k)
				want[lk] = append(want[lk], v)
			}
		}
		for k, vs := range want {
			got := seenMD.Get(k)
			if !sameStrings(vs, got) {
				r.Violate("creds/not-merged", "credentials contribute their metadata to the request, merged with the caller's own outgoing metadata, on both transports",
					sprintf("%s: key %q: handler saw %q, want %q", tp.name, k, got, vs), c, mdArg(seenMD))
			}
		}
		// peer
		if seenPeer == nil || seenPeer.Addr == nil || seenPeer.Addr.String() == "" {
			r.Violate("peer/handler-peer-missing", "the handler's peer reports the remote address", sprintf("%s: handler peer %v", tp.name, seenPeer), c, "")
		} else if a := seenPeer.Addr.String(); a == "203.0.113.9:999" {
			r.Violate("peer/handler-peer-is-callers-upstream-peer", "the handler's peer reports the remote address (of this call's connection)", sprintf("%s: the handler's peer is %q, the peer found in the caller's context (the caller's own upstream), not this call's", tp.name, a), c, a)
		} else if a := seenPeer.Addr.String(); tp.name == "httpmem" && a != "192.0.2.1:1234" ||
			strings.HasPrefix(tp.name, "http") && tp.name != "httpmem" && !strings.HasPrefix(a, "127.0.0.1:") && !strings.HasPrefix(a, "[::1]:") {
			r.Violate("peer/handler-peer-not-remote-address", "the handler's peer reports the remote address", sprintf("%s: handler peer address %q is not the address of the connection", tp.name, a), c, a)
		} else if tp.name == "httptls" {
			if _, ok := seenPeer.AuthInfo.(credentials.TLSInfo); !ok {
				r.Violate("peer/handler-peer-no-tls", "TLS authentication info whenever the connection uses TLS", sprintf("handler peer AuthInfo %T", seenPeer.AuthInfo), c, "")
			}
		}
		if withPeer {
			if pr.Addr != nil && pr.Addr.String() == "203.0.113.9:999" {
				r.Violate("peer/option-is-callers-upstream-peer", "the peer call option reports the remote address", sprintf("%s: peer option reports %q, the peer from the caller's context", tp.name, pr.Addr), c, "")
			} else if pr.Addr == nil || pr.Addr.String() == "" {
				r.Violate("peer/option-missing", "the peer call option reports the remote address", sprintf("%s streaming=%v: peer option %+v", tp.name, streaming, pr), c, "")
			} else if tp.name == "httptls" {
				if _, ok := pr.AuthInfo.(credentials.TLSInfo); !ok {
					sig := "peer/option-no-tls-streaming"
					if !streaming {
						sig = "peer/option-no-tls-unary"
					}
					r.Violate(sig, "TLS authentication info whenever the connection uses TLS, for unary and streaming calls alike",
						sprintf("https %s call: peer option AuthInfo is %T", map[bool]string{true: "streaming", false: "unary"}[streaming], pr.AuthInfo), c, fmt.Sprintf("%T", pr.AuthInfo))
				}
			} else if tp.name != "inproc" && pr.AuthInfo != nil {
				r.Violate("peer/option-tls-without-tls", "TLS info only when the connection uses TLS", sprintf("%s: AuthInfo %T", tp.name, pr.AuthInfo), c, "")
			}
			tlsFlag := tp.name == "httptls"
			_, gotTLS := pr.AuthInfo.(credentials.TLSInfo)
			if tp.name != "inproc" {
				r.Op(sprintf("C13 peer %s conntls=%s", map[bool]string{true: "stream", false: "unary"}[streaming], b01(tlsFlag)), sprintf("tls=%s", b01(gotTLS)))
			}
		}
		if len(r.Samples) < 4 && tc != nil {
			r.Sample(map[string]interface{}{"case": c, "handler_md": mdArg(seenMD), "peer_option_auth": fmt.Sprintf("%T", pr.AuthInfo)})
		}
	}
	// the peer option after a call the server rejected at the HTTP level (unknown method: 404), unary and streaming
	for _, tpName := range []string{"httpnet", "httptls"} {
		for _, streaming := range []bool{false, true} {
			hs := httpgrpc.NewServer()
			grpchantesting.RegisterTestServiceServer(hs, &scriptServer{})
			var ts *httptest.Server
			if tpName == "httptls" {
				ts = httptest.NewTLSServer(hs)
			} else {
				ts = httptest.NewServer(hs)
			}
			u, _ := url.Parse(ts.URL + "/")
			ch := &httpgrpc.Channel{Transport: ts.Client().Transport, BaseURL: u}
			var pr peer.Peer
			var err error
			if !streaming {
				err = ch.Invoke(context.Background(), "/grpchantesting.TestService/NoSuchMethod", &Msg{}, &Msg{}, grpc.Peer(&pr))
			} else {
				var cs grpc.ClientStream
				cs, err = ch.NewStream(context.Background(), descSStream, "/grpchantesting.TestService/NoSuchStream", grpc.Peer(&pr))
				if err == nil {
					cs.SendMsg(&Msg{})
					cs.CloseSend()
					var m Msg
					err = cs.RecvMsg(&m)
				}
			}
			ts.Close()
			c := map[string]interface{}{"transport": tpName, "streaming": streaming, "op": "call-rejected-with-404", "peer_option": true}
			r.Eval(fmt.Sprint("peer-after-404", tpName, streaming), true)
			r.Count("peer-after-http-rejection")
			if err == nil {
				r.Violate("peer/unknown-method-succeeded", "unknown methods fail", "call to an unknown method returned nil", c, "")
			} else if pr.Addr == nil || pr.Addr.String() == "" {
				r.Violate("peer/option-missing", "the peer call option reports the remote address, for unary and streaming calls alike (a call the server answered with an error has talked to that peer too)", sprintf("%s streaming=%v, server answered 404 (%v): peer option %+v", tpName, streaming, err, pr), c, "")
			} else if _, isTLS := pr.AuthInfo.(credentials.TLSInfo); tpName == "httptls" && !isTLS {
				r.Violate("peer/option-no-tls-after-rejection", "TLS authentication info whenever the connection uses TLS", sprintf("https, server answered 404: AuthInfo %T", pr.AuthInfo), c, "")
			}
		}
	}
	_ = tls.VersionTLS12
	// only "https" counts as secure: a base URL whose scheme is anything else (also "HTTP", "Https" written
	// in a struct literal, "ws", or empty) must not let credentials that require transport security through
	for _, scheme := range []string{"HTTP", "Http", "hTTps", "ws", "h2c", "", "httpss"} {
		for _, streaming := range []bool{false, true} {
			svr := &scriptServer{}
			hm := newHTTPMem(svr)
			hm.ch.BaseURL = &url.URL{Scheme: scheme, Host: "mem.test", Path: "/"}
			tc := &testCreds{secure: true, md: map[string]string{"authorization": "Bearer top-secret"}}
			var err error
			if !streaming {
				err = hm.ch.Invoke(context.Background(), mUnary, &Msg{}, &Msg{}, grpc.PerRPCCredentials(tc))
			} else {
				var cs grpc.ClientStream
				cs, err = hm.ch.NewStream(context.Background(), descSStream, mSStream, grpc.PerRPCCredentials(tc))
				if err == nil {
					cs.SendMsg(&Msg{})
					cs.CloseSend()
					var m Msg
					err = cs.RecvMsg(&m)
				}
			}
			c := map[string]interface{}{"transport": "http", "scheme": scheme, "streaming": streaming, "creds": "require transport security"}
			r.Eval(fmt.Sprint("odd-scheme", scheme, streaming), true)
			r.Count("e2e:odd-scheme")
			if err == nil || hm.tr.Trips() > 0 || tc.calls != 0 {
				r.Violate("creds/insecure-not-blocked", "if they require transport security and the HTTP base URL is not https, the call fails before any request is issued",
					sprintf("base URL scheme %q: err=%v, round trips %d, credential consulted %d", scheme, err, hm.tr.Trips(), tc.calls), c, canonErr(err))
			}
		}
	}

}

type countingRT struct {
	rt http.RoundTripper
	n  int
}

func (c *countingRT) RoundTrip(r *http.Request) (*http.Response, error) {
	c.n++
	return c.rt.RoundTrip(r)
}

func sameStrings(a, b []string) bool {
	if len(a) != len(b) {
		return false
	}
	x := append([]string{}, a...)
	y := append([]string{}, b...)
	// caller values first and in order; credential values of colliding keys may come in map order
	sort.Strings(x)
	sort.Strings(y)
	for i := range x {
		if x[i] != y[i] {
			return false
		}
	}
	return true
}

func sameMultiset(a, b metadata.MD) bool {
	if len(a) != len(b) {
		return false
	}
	for k, v := range a {
		if !sameStrings(v, b[k]) {
			return false
		}
	}
	return true
}
