package main

import (
	"net/http/httptest"
	"bytes"
	"context"
	"fmt"
	"sort"
	"strings"

	"github.com/fullstorydev/grpchan"
	"github.com/fullstorydev/grpchan/httpgrpc"
	"github.com/fullstorydev/grpchan/inprocgrpc"
	"google.golang.org/grpc"
)

func init() { suites["C15"] = suiteC15 }

type otherHandler interface{ other() }
type notImpl struct{}

// an interface with exported methods only (like hand-written or older generated service interfaces),
// its implementation, and look-alikes: same method names with other signatures; one method missing
type pubHandler interface {
	Get(ctx context.Context, in *Msg) (*Msg, error)
	Put(in *Msg) error
}
type pubImpl struct{}

func (pubImpl) Get(ctx context.Context, in *Msg) (*Msg, error) { return in, nil }
func (pubImpl) Put(in *Msg) error                              { return nil }

type pubLookalike struct{}

func (pubLookalike) Get(in *Msg) *Msg { return in }
func (pubLookalike) Put(in string)    {}

type pubPartial struct{}

// structs handed over BY VALUE whose methods are declared on the pointer receiver: the value does not
// implement the interface (only its address would)
type synthPtrOnly struct{ n int }

func (*synthPtrOnly) mark() {}

type pubPtrOnly struct{ n int }

func (*pubPtrOnly) Get(ctx context.Context, in *Msg) (*Msg, error) { return in, nil }
func (*pubPtrOnly) Put(in *Msg) error                              { return nil }

func (pubPartial) Get(ctx context.Context, in *Msg) (*Msg, error) { return in, nil }

type metaObj struct{ n int }

type regCarrier interface {
	RegisterService(*grpc.ServiceDesc, interface{})
	GetServiceInfo() map[string]grpc.ServiceInfo
}

func suiteC15(r *Run) {
	r.Rule = "random histories of register/query/iterate/info operations over synthetic service descriptors (0..4 unary and 0..4 streaming methods, random flags, metadata), including duplicate and ill-typed registrations, on HandlerMap, inprocgrpc.Channel and httpgrpc.Server; parity with grpc.Server.GetServiceInfo on the valid sub-history. Non-trivial: history contains a duplicate or ill-typed registration or >= 2 services; distinct by (carrier, history)."
	r.Assumptions = append(r.Assumptions, "reflect.Type.Implements (external typeOK)", "grpc.Server.GetServiceInfo as the reference")
	rng := r.Rng
	// names are byte strings: near misses of a registered name (a leading or trailing slash, other letter case) are other names
	names := []string{"a.A", "a.B", "b.A", "x", "a.AA", "/a.A", "a.A/", "A.A", "a.a", "/x"}

	mkDesc := func(id int, name string) *grpc.ServiceDesc {
		d := &grpc.ServiceDesc{ServiceName: name, HandlerType: (*synthHandler)(nil), Metadata: fmt.Sprintf("file%d.proto", id)}
		// "any metadata": generated code puts a file name there, hand-written descriptions anything
		switch id % 5 {
		case 2:
			d.Metadata = id
		case 3:
			d.Metadata = &metaObj{id}
		case 4:
			d.Metadata = metaObj{id}
		}
		if id%2 == 1 {
			d.HandlerType = (*pubHandler)(nil)
		}
		for i := 0; i < rng.Intn(5); i++ {
			d.Methods = append(d.Methods, grpc.MethodDesc{MethodName: fmt.Sprintf("U%d_%d", id, i), Handler: func(srv interface{}, ctx context.Context, dec func(interface{}) error, interceptor grpc.UnaryServerInterceptor) (interface{}, error) {
				return &Msg{}, nil
			}})
		}
		for i := 0; i < rng.Intn(5); i++ {
			d.Streams = append(d.Streams, grpc.StreamDesc{StreamName: fmt.Sprintf("S%d_%d", id, i), ClientStreams: rng.Bool(), ServerStreams: rng.Bool(), Handler: func(srv interface{}, stream grpc.ServerStream) error { return nil }})
		}
		return d
	}

	// a refused registration leaves no trace: afterwards the name can still be registered properly, and (HTTP) its
	// method paths are not routed
	for _, carrier := range []string{"handlermap", "inproc", "http"} {
		for variant := 0; variant < 3; variant++ {
			var reg regCarrier
			var hsrv *httpgrpc.Server
			switch carrier {
			case "handlermap":
				reg = grpchan.HandlerMap{}
			case "inproc":
				reg = &inprocgrpc.Channel{}
			case "http":
				hsrv = httpgrpc.NewServer()
				reg = hsrv
			}
			d := mkDesc(9000+variant, "a.A")
			d.HandlerType = (*synthHandler)(nil)
			if len(d.Methods) == 0 {
				d.Methods = append(d.Methods, grpc.MethodDesc{MethodName: "U0", Handler: func(srv interface{}, ctx context.Context, dec func(interface{}) error, i grpc.UnaryServerInterceptor) (interface{}, error) {
					return &Msg{}, nil
				}})
			}
			var bad interface{} = notImpl{}
			if variant == 2 {
				bad = synthPtrOnly{}
			}
			if variant == 1 {
				// refused as a duplicate: the second description has one more method
				reg.RegisterService(d, synthImpl{})
			}
			d2 := *d
			if variant == 1 {
				d2.Methods = append(append([]grpc.MethodDesc{}, d.Methods...), grpc.MethodDesc{MethodName: "Extra", Handler: d.Methods[0].Handler})
				bad = synthImpl{}
			}
			pan := ""
			func() { defer recoverTo(&pan); reg.RegisterService(&d2, bad) }()
			c := map[string]interface{}{"carrier": carrier, "history": map[int]string{0: "ill-typed registration, then a valid one of the same name", 1: "registration, then a duplicate with an extra method", 2: "registration of a struct value whose methods are on the pointer receiver (ill-typed), then a valid one of the same name"}[variant]}
			r.Eval(fmt.Sprint("refused-leaves-no-trace", carrier, variant), true)
			r.Count("directed:refused-registration")
			if pan == "" {
				r.Violate("registry/"+carrier+"/refusal-wrong", "registering a second handler for a name, or a handler that does not implement the service's interface, is refused by panicking", "the registration was accepted", c, "ok")
				continue
			}
			if hsrv != nil {
				// the refused description's method paths must not be served by it
				path := "/a.A/" + d2.Methods[len(d2.Methods)-1].MethodName
				req := httptest.NewRequest("POST", "http://x.test"+path, bytes.NewReader(nil))
				req.Header.Set("Content-Type", httpgrpc.UnaryRpcContentType_V1)
				rec := httptest.NewRecorder()
				func() { defer recoverTo(&pan); hsrv.ServeHTTP(rec, req) }()
				if rec.Code != 404 {
					r.Violate("registry/http/refused-registration-left-routes", "a refused registration leaves the registry as it was", sprintf("after the refused registration POST %s is answered %d (want 404)", path, rec.Code), c, fmt.Sprint(rec.Code))
				}
			}
			if variant != 1 {
				pan2 := ""
				func() { defer recoverTo(&pan2); reg.RegisterService(d, synthImpl{}) }()
				if pan2 != "" {
					r.Violate("registry/"+carrier+"/valid-registration-refused-after-refusal", "a refused registration leaves the registry as it was", sprintf("a valid registration of the same name after the refused one panicked: %s", trunc(pan2, 120)), c, "panic")
				} else if _, ok := reg.GetServiceInfo()["a.A"]; !ok {
					r.Violate("registry/"+carrier+"/info-unfaithful", "the reported service info lists the registered services", "a.A missing after the valid registration", c, "")
				}
			}
		}
	}
	for iter := 0; iter < r.Budget(150, 6000); iter++ {
		carrier := []string{"handlermap", "inproc", "http"}[iter%3]
		var reg regCarrier
		var hm grpchan.HandlerMap
		switch carrier {
		case "handlermap":
			hm = grpchan.HandlerMap{}
			reg = hm
		case "inproc":
			reg = &inprocgrpc.Channel{}
		case "http":
			reg = httpgrpc.NewServer()
		}
		ref := grpc.NewServer()
		descs := map[int]*grpc.ServiceDesc{}
		var ops, answers []string
		nontrivial := false
		registered := map[string]int{}
		nOps := 1 + rng.Intn(9)
		for j := 0; j < nOps; j++ {
			switch rng.Intn(6) {
			case 0, 1, 2: // register
				id := iter*100 + j
				name := rng.Pick(names)
				d := mkDesc(id, name)
				descs[id] = d
				typeOK := !rng.Chance(20)
				var h interface{} = synthImpl{}
				if d.HandlerType == (*pubHandler)(nil) {
					h = pubImpl{}
				}
				if !typeOK {
					h = []interface{}{notImpl{}, pubLookalike{}, pubPartial{}, synthImpl{}, synthPtrOnly{}, pubPtrOnly{}}[rng.Intn(6)]
					if _, isSynth := h.(synthImpl); isSynth && d.HandlerType != (*pubHandler)(nil) {
						h = notImpl{}
					}
					if _, ok := h.(synthPtrOnly); ok && d.HandlerType == (*pubHandler)(nil) {
						h = pubPtrOnly{}
					} else if _, ok := h.(pubPtrOnly); ok && d.HandlerType != (*pubHandler)(nil) {
						h = synthPtrOnly{}
					}
				}
				pan := ""
				func() {
					defer recoverTo(&pan)
					reg.RegisterService(d, h)
				}()
				ops = append(ops, sprintf("r:%s:%d:%s", hexOrDash([]byte(name)), id, b01(typeOK)))
				_, dup := registered[name]
				if pan != "" {
					answers = append(answers, "panic")
					nontrivial = true
				} else {
					answers = append(answers, "ok")
					// the reference server gets the valid sub-history as the SPECIFICATION defines it (first
					// well-typed registration per name) — it would log.Fatal on a duplicate the implementation let through
					if !dup && typeOK {
						ref.RegisterService(d, h)
					}
				}
				c := map[string]interface{}{"carrier": carrier, "history": strings.Join(ops, ";")}
				if (dup || !typeOK) != (pan != "") {
					r.Violate("registry/"+carrier+"/refusal-wrong", "registering a second handler for a name, or a handler that does not implement the service's interface, is refused by panicking",
						sprintf("register %q dup=%v typeOK=%v: panicked=%v", name, dup, typeOK, pan != ""), c, pan)
				}
				if pan == "" && !dup {
					registered[name] = id
				}
			case 3: // query (HandlerMap only exposes QueryService; others via info)
				name := rng.Pick(names)
				if hm != nil {
					d, h := hm.QueryService(name)
					ops = append(ops, "q:"+hexOrDash([]byte(name)))
					ans := "none"
					if d != nil {
						for id, dd := range descs {
							if dd == d {
								ans = fmt.Sprint(id)
							}
						}
						_, ok1 := h.(synthImpl)
						_, ok2 := h.(pubImpl)
						if !ok1 && !ok2 {
							ans += "!handler"
						}
					}
					answers = append(answers, ans)
					want := "none"
					if id, ok := registered[name]; ok {
						want = fmt.Sprint(id)
					}
					if ans != want {
						r.Violate("registry/handlermap/query-wrong", "looking up a service name returns exactly the descriptor and handler registered under it (nothing for names never registered)",
							sprintf("QueryService(%q) = %s, want %s", name, ans, want), map[string]interface{}{"carrier": carrier, "history": strings.Join(ops, ";")}, ans)
					}
				}
			case 4: // iterate
				if hm != nil {
					var seen []string
					hm.ForEach(func(d *grpc.ServiceDesc, svr interface{}) {
						for id, dd := range descs {
							if dd == d {
								seen = append(seen, sprintf("%s:%d", hexOrDash([]byte(d.ServiceName)), id))
							}
						}
					})
					sort.Strings(seen)
					ops = append(ops, "f")
					answers = append(answers, "["+strings.Join(seen, ",")+"]")
					if len(seen) != len(registered) {
						r.Violate("registry/handlermap/foreach-count", "iteration visits every registration exactly once", sprintf("visited %d, registered %d", len(seen), len(registered)), map[string]interface{}{"carrier": carrier, "history": strings.Join(ops, ";")}, fmt.Sprint(seen))
					}
				}
			case 5: // info
				info := reg.GetServiceInfo()
				var seen []string
				for n, si := range info {
					id := registered[n]
					seen = append(seen, sprintf("%s:%d", hexOrDash([]byte(n)), id))
					// faithful to the descriptor: unary methods then streams with flags, metadata
					d := descs[id]
					var want []grpc.MethodInfo
					for _, m := range d.Methods {
						want = append(want, grpc.MethodInfo{Name: m.MethodName})
					}
					for _, m := range d.Streams {
						want = append(want, grpc.MethodInfo{Name: m.StreamName, IsClientStream: m.ClientStreams, IsServerStream: m.ServerStreams})
					}
					if fmt.Sprint(want) != fmt.Sprint(si.Methods) || si.Metadata != d.Metadata {
						r.Violate("registry/"+carrier+"/info-unfaithful", "the reported service info equals what was registered", sprintf("service %q: %v / %v, want %v / %v", n, si.Methods, si.Metadata, want, d.Metadata), map[string]interface{}{"carrier": carrier, "history": strings.Join(ops, ";")}, "")
					}
				}
				sort.Strings(seen)
				ops = append(ops, "i")
				answers = append(answers, "["+strings.Join(seen, ",")+"]")
				// parity with the standard server (as sets)
				refInfo := ref.GetServiceInfo()
				if !sameInfo(info, refInfo) {
					r.Violate("registry/"+carrier+"/info-differs-from-grpc-server", "the reported service info equals what a standard gRPC server reports for the same registrations",
						sprintf("got %v, grpc.Server reports %v", info, refInfo), map[string]interface{}{"carrier": carrier, "history": strings.Join(ops, ";")}, "")
				}
			}
		}
		if len(registered) >= 2 {
			nontrivial = true
		}
		if len(ops) == 0 {
			continue
		}
		r.Op(sprintf("C15 %s hist=%s", carrier, strings.Join(ops, ";")), strings.Join(answers, " "))
		r.Eval(carrier+strings.Join(ops, ";"), nontrivial)
		r.Count("carrier:" + carrier)
		r.TracesOnImpl++
		if len(r.Samples) < 4 && nontrivial {
			r.Sample(map[string]interface{}{"carrier": carrier, "history": strings.Join(ops, ";"), "impl": strings.Join(answers, " ")})
		}
	}
}

func sameInfo(a, b map[string]grpc.ServiceInfo) bool {
	if len(a) != len(b) {
		return false
	}
	for n, x := range a {
		y, ok := b[n]
		if !ok || x.Metadata != y.Metadata || len(x.Methods) != len(y.Methods) {
			return false
		}
		xs, ys := []string{}, []string{}
		for _, m := range x.Methods {
			xs = append(xs, fmt.Sprint(m))
		}
		for _, m := range y.Methods {
			ys = append(ys, fmt.Sprint(m))
		}
		sort.Strings(xs)
		sort.Strings(ys)
		if strings.Join(xs, "|") != strings.Join(ys, "|") {
			return false
		}
	}
	return true
}
