package main

import (
	"context"
	"fmt"
	"strings"
	"time"

	"github.com/fullstorydev/grpchan/grpchantesting"
	"github.com/fullstorydev/grpchan/inprocgrpc"
	"google.golang.org/grpc"
	"google.golang.org/grpc/metadata"
	"google.golang.org/grpc/peer"
)

func init() { suites["C10"] = suiteC10 }

type userKey int
type userKeyStr string

func suiteC10(r *Run) {
	r.Rule = "real in-process calls (unary and streaming, with and without server interceptors) whose caller context is a random chain of user values (int-typed, string-typed and pointer keys), outgoing metadata, deadlines and cancel scopes; issued from plain code, from inside another in-process handler and from inside a real grpc handler (so the caller context carries incoming metadata, a peer and a server transport stream). The handler reports every probed key. Non-trivial: caller chain has >= 1 user value or is nested; distinct by (kind, nesting, chain)."
	r.Assumptions = append(r.Assumptions, "context and grpc metadata/peer packages (value lookup, copy-on-read of metadata)")
	rng := r.Rng
	ptrKey := new(int)

	type report struct {
		user       map[string]bool
		incoming   metadata.MD
		hasIn      bool
		outgoing   bool
		peerNet    string
		stsMethod  string
		hasSTS     bool
		deadline   time.Time
		hasDL      bool
		clientCtx  context.Context
		ctx        context.Context
		cancelSeen bool
	}
	probe := func(ctx context.Context) *report {
		rep := &report{user: map[string]bool{}, ctx: ctx}
		for i := 0; i < 4; i++ {
			rep.user[fmt.Sprintf("int%d", i)] = ctx.Value(userKey(i)) != nil
			rep.user[fmt.Sprintf("str%d", i)] = ctx.Value(userKeyStr(fmt.Sprint(i))) != nil
		}
		rep.user["ptr"] = ctx.Value(ptrKey) != nil
		rep.incoming, rep.hasIn = metadata.FromIncomingContext(ctx)
		_, rep.outgoing = metadata.FromOutgoingContext(ctx)
		if p, ok := peer.FromContext(ctx); ok && p.Addr != nil {
			rep.peerNet = p.Addr.Network()
		}
		if sts := grpc.ServerTransportStreamFromContext(ctx); sts != nil {
			rep.hasSTS = true
			rep.stsMethod = sts.Method()
		}
		rep.deadline, rep.hasDL = ctx.Deadline()
		rep.clientCtx = inprocgrpc.ClientContext(ctx)
		return rep
	}

	for iter := 0; iter < r.Budget(150, 6000); iter++ {
		streaming := iter%2 == 1
		nesting := []string{"plain", "in-inproc-handler", "in-grpc-handler"}[rng.Intn(3)]
		withInterceptor := rng.Chance(30)
		// build the caller chain
		var chainDesc []string
		userSet := map[string]bool{}
		outMD := metadata.MD(nil)
		var dl time.Time
		hasDL := false
		build := func(ctx context.Context) (context.Context, []context.CancelFunc) {
			var cancels []context.CancelFunc
			for j := 0; j < rng.Intn(6); j++ {
				switch rng.Intn(6) {
				case 0:
					k := rng.Intn(4)
					ctx = context.WithValue(ctx, userKey(k), "v")
					userSet[fmt.Sprintf("int%d", k)] = true
					chainDesc = append(chainDesc, fmt.Sprintf("v:int%d", k))
				case 1:
					k := rng.Intn(4)
					ctx = context.WithValue(ctx, userKeyStr(fmt.Sprint(k)), 42)
					userSet[fmt.Sprintf("str%d", k)] = true
					chainDesc = append(chainDesc, fmt.Sprintf("v:str%d", k))
				case 2:
					ctx = context.WithValue(ctx, ptrKey, "p")
					userSet["ptr"] = true
					chainDesc = append(chainDesc, "v:ptr")
				case 3:
					outMD = metadata.Pairs("k", fmt.Sprint("out", iter, j), "x-bin", "\x00\xff")
					ctx = metadata.NewOutgoingContext(ctx, outMD)
					if rng.Chance(50) {
						// further pairs appended the other way the API offers (and a mixed-case key)
						ctx = metadata.AppendToOutgoingContext(ctx, "k", "appended", "Extra-Key", "e1")
					}
					chainDesc = append(chainDesc, "out")
				case 4:
					var c context.CancelFunc
					ctx, c = context.WithCancel(ctx)
					cancels = append(cancels, c)
					chainDesc = append(chainDesc, "c")
				case 5:
					var c context.CancelFunc
					d := time.Now().Add(time.Duration(1+rng.Intn(100)) * time.Hour)
					ctx, c = context.WithDeadline(ctx, d)
					if !hasDL || d.Before(dl) {
						dl, hasDL = d, true
					}
					cancels = append(cancels, c)
					chainDesc = append(chainDesc, "dl")
				}
			}
			return ctx, cancels
		}

		var rep *report
		var callerCtx context.Context
		inner := &scriptServer{}
		inner.unary = func(ctx context.Context, req *Msg) (*Msg, error) { rep = probe(ctx); return &Msg{}, nil }
		inner.sstream = func(req *Msg, s grpchantesting.TestService_ServerStreamServer) error {
			rep = probe(s.Context())
			return nil
		}
		innerCh := newInproc(inner)
		if withInterceptor {
			innerCh.WithServerUnaryInterceptor(func(ctx context.Context, req interface{}, info *grpc.UnaryServerInfo, handler grpc.UnaryHandler) (interface{}, error) {
				return handler(ctx, req)
			})
			innerCh.WithServerStreamInterceptor(func(srv interface{}, ss grpc.ServerStream, info *grpc.StreamServerInfo, handler grpc.StreamHandler) error {
				return handler(srv, ss)
			})
		}
		doCall := func(base context.Context) error {
			ctx, cancels := build(base)
			defer func() {
				for _, c := range cancels {
					c()
				}
			}()
			callerCtx = ctx
			if !streaming {
				return innerCh.Invoke(ctx, mUnary, &Msg{}, &Msg{})
			}
			cs, err := innerCh.NewStream(ctx, descSStream, mSStream)
			if err != nil {
				return err
			}
			// the caller goes on using its metadata map once the stream exists (as on a connection, what was sent is sent)
			if outMD != nil {
				outMD.Set("late-key", "set-after-newstream")
				defer delete(outMD, "late-key")
			}
			cs.SendMsg(&Msg{})
			cs.CloseSend()
			var m Msg
			err = cs.RecvMsg(&m)
			if err != nil && err.Error() == "EOF" {
				return nil
			}
			return err
		}
		var err error
		nestedIncoming := false
		switch nesting {
		case "plain":
			err = doCall(context.Background())
		case "in-inproc-handler":
			nestedIncoming = true
			outer := &scriptServer{unary: func(ctx context.Context, req *Msg) (*Msg, error) { return &Msg{}, doCall(ctx) }}
			octx := metadata.AppendToOutgoingContext(context.Background(), "outer-only", "1")
			err = newInproc(outer).Invoke(octx, mUnary, &Msg{}, &Msg{})
		case "in-grpc-handler":
			nestedIncoming = true
			outer := &scriptServer{unary: func(ctx context.Context, req *Msg) (*Msg, error) { return &Msg{}, doCall(ctx) }}
			bb := newBufconn(outer)
			octx := metadata.AppendToOutgoingContext(context.Background(), "outer-only", "1")
			err = func() error { _, e := grpchantesting.NewTestServiceClient(bb.cc).Unary(octx, &Msg{}); return e }()
			bb.stop()
		}
		c := map[string]interface{}{"streaming": streaming, "nesting": nesting, "interceptor": withInterceptor, "chain": strings.Join(chainDesc, ",")}
		r.Eval(fmt.Sprint(streaming, nesting, withInterceptor, chainDesc), len(userSet) > 0 || nesting != "plain")
		r.Count("nesting:" + nesting)
		r.TracesOnImpl++
		if err != nil || rep == nil {
			r.Violate("inproc-ctx/call-failed", "the call goes through", fmt.Sprint(err), c, "")
			continue
		}
		var leaked []string
		for k, v := range rep.user {
			if v {
				leaked = append(leaked, k)
			}
		}
		if len(leaked) > 0 {
			r.Violate("inproc-ctx/caller-value-visible", "exposes none of the values stored in the caller's context", sprintf("handler sees caller values %v", leaked), c, fmt.Sprint(leaked))
		}
		if rep.outgoing {
			r.Violate("inproc-ctx/outgoing-md-visible", "exposes none of the values stored in the caller's context (outgoing metadata key)", "handler context has outgoing metadata", c, "")
		}
		// incoming == caller's outgoing
		if outMD != nil {
			if !rep.hasIn || rep.incoming.Get("k")[0] != outMD.Get("k")[0] || rep.incoming.Get("x-bin")[0] != "\x00\xff" {
				r.Violate("inproc-ctx/incoming-md-wrong", "exposes the caller's outgoing metadata as incoming metadata", sprintf("incoming %v, caller outgoing %v", rep.incoming, outMD), c, "")
			}
			if len(rep.incoming.Get("outer-only")) != 0 {
				r.Violate("inproc-ctx/enclosing-incoming-md-leaked", "never the caller's enclosing incoming metadata", sprintf("incoming %v", rep.incoming), c, "")
			}
		} else if rep.hasIn && (nestedIncoming && len(rep.incoming.Get("outer-only")) != 0) {
			r.Violate("inproc-ctx/enclosing-incoming-md-leaked", "never the caller's enclosing incoming metadata", sprintf("incoming %v without caller outgoing metadata", rep.incoming), c, "")
		}
		if rep.peerNet != "inproc" {
			r.Violate("inproc-ctx/peer-wrong", "an in-process peer", sprintf("peer network %q", rep.peerNet), c, rep.peerNet)
		}
		wantMethod := mUnary
		if streaming {
			wantMethod = mSStream
		}
		if !rep.hasSTS || rep.stsMethod != wantMethod {
			r.Violate("inproc-ctx/transport-stream-wrong", "the library's own transport stream, never an enclosing server's", sprintf("transport stream method %q", rep.stsMethod), c, rep.stsMethod)
		}
		if rep.hasDL != hasDL || (hasDL && !rep.deadline.Equal(dl)) {
			r.Violate("inproc-ctx/deadline-wrong", "the caller's deadline", sprintf("handler deadline %v/%v, caller %v/%v", rep.hasDL, rep.deadline, hasDL, dl), c, "")
		}
		// the sanctioned back-door
		if rep.clientCtx == nil {
			r.Violate("inproc-ctx/client-context-missing", "the explicit client-context accessor returns the caller's original context", "ClientContext returned nil", c, "")
		} else {
			for k := range userSet {
				var v interface{}
				switch {
				case strings.HasPrefix(k, "int"):
					v = rep.clientCtx.Value(userKey(int(k[3] - '0')))
				case strings.HasPrefix(k, "str"):
					v = rep.clientCtx.Value(userKeyStr(k[3:]))
				default:
					v = rep.clientCtx.Value(ptrKey)
				}
				if v == nil {
					r.Violate("inproc-ctx/client-context-wrong", "the explicit client-context accessor returns the caller's original context", sprintf("caller value %s not reachable through ClientContext", k), c, "")
				}
			}
		}
		// metadata independence: mutate on each side
		if co, ok := metadata.FromOutgoingContext(callerCtx); ok && rep.hasIn && !nestedIncoming {
			if same, why := sameMD(co, rep.incoming); !same {
				r.Violate("inproc-ctx/incoming-differs-from-outgoing", "the handler sees the caller's outgoing metadata as its incoming metadata", sprintf("caller's outgoing metadata %v, handler's incoming metadata %v (%s)", co, rep.incoming, why), c, mdArg(rep.incoming))
			}
		}
		if rep.hasIn && len(rep.incoming.Get("late-key")) > 0 {
			r.Violate("inproc-ctx/metadata-shared", "mutating the metadata on either side never affects the other", "a key the caller put into its metadata map after NewStream had returned is in the handler's incoming metadata", c, mdArg(rep.incoming))
		}
		if outMD != nil && rep.hasIn {
			snapshot := rep.incoming.Copy()
			outMD.Set("k", "mutated-by-caller")
			again, _ := metadata.FromIncomingContext(rep.ctx)
			if again.Get("k")[0] != snapshot.Get("k")[0] {
				r.Violate("inproc-ctx/metadata-shared", "mutating the metadata on either side never affects the other", "caller-side mutation visible in the handler's incoming metadata", c, "")
			}
			rep.incoming.Set("k", "mutated-by-handler")
			co, _ := metadata.FromOutgoingContext(callerCtx)
			if len(co.Get("k")) > 0 && co.Get("k")[0] == "mutated-by-handler" {
				r.Violate("inproc-ctx/metadata-shared", "mutating the metadata on either side never affects the other", "handler-side mutation visible in the caller's outgoing metadata", c, "")
			}
		}
		// model line: which probes are visible
		hasOut := "0"
		if outMD != nil {
			hasOut = "1"
		}
		var vis []string
		for _, k := range []string{"int0", "int1", "int2", "int3", "str0", "str1", "str2", "str3", "ptr"} {
			if rep.user[k] {
				vis = append(vis, k)
			}
		}
		r.Op(sprintf("C10 probe chain=%s nested=%s", strings.Join(chainDesc, ","), b01(nestedIncoming)),
			sprintf("user=[%s] in=%s out=%s peer=%s sts=%s dl=%s", strings.Join(vis, ","), b01(rep.hasIn && len(rep.incoming.Get("k")) > 0), b01(rep.outgoing), rep.peerNet, map[bool]string{true: "new", false: "none"}[rep.hasSTS && rep.stsMethod == wantMethod], b01(rep.hasDL)))
		_ = hasOut
		if len(r.Samples) < 4 && len(userSet) > 0 && nesting != "plain" {
			r.Sample(map[string]interface{}{"case": c, "handler_sees_user_values": vis, "incoming": fmt.Sprint(rep.incoming)})
		}
	}
}


func sameMD(a, b metadata.MD) (bool, string) {
	if len(a) != len(b) {
		return false, "different key sets"
	}
	for k, va := range a {
		vb := b[k]
		if len(va) != len(vb) {
			return false, "key " + k
		}
		for i := range va {
			if va[i] != vb[i] {
				return false, "key " + k
			}
		}
	}
	return true, ""
}
