module verif/harness

go 1.18

require (
	github.com/fullstorydev/grpchan v0.0.0
	github.com/golang/protobuf v1.5.4
	github.com/jhump/protoreflect v1.15.6
	google.golang.org/genproto/googleapis/rpc v0.0.0-20240318140521-94a12d6c2237
	google.golang.org/grpc v1.57.1
	google.golang.org/protobuf v1.33.0
)

require (
	github.com/bufbuild/protocompile v0.9.0 // indirect
	golang.org/x/net v0.23.0 // indirect
	golang.org/x/sys v0.18.0 // indirect
	golang.org/x/text v0.14.0 // indirect
)

replace github.com/fullstorydev/grpchan => /repo
